//! C06 — kernel matrices hold the kernel function; hierarchical clustering partitions.
//!
//! * `kernel`: a record matrix, a kernel method, a neighbour count; the dense kernel and the sparse
//!   kernel under all three neighbour indices are built through the public `transform` overloads and
//!   compared with an independently coded kernel function, a k-NN validity predicate (ties free) and
//!   their own densified matrix (size / sum / column / diagonal / upper triangle / dot; owned and view).
//! * `threshold`, `num_clusters`, `num_clusters_all`: agglomerative clustering of a kernel; the
//!   similarity matrix is read off the kernel object, transformed by -ln(max(s,1e-6)) and clustered by
//!   naive reference code (connected components for single linkage, O(n^3) Lance–Williams otherwise).
//!   Cluster ids are arbitrary: only partitions are compared.

pub mod gen;
pub mod hier;
pub mod kernel;
pub mod oracle;

use gen::{data_class, gaussian_method, kernel_method_any, wide_gaussian_method, kernel_method, link, records, theta, DataClass};
use hier::{check_hier, Crit, HCase};
use kernel::{check_kernel, KCase};
use oracle::{Link, KM};
use proptest::prelude::*;
use vengine::gen::SplitMix;
use vengine::{enum_sub, prop_sub, Property, Tier};

fn kernel_strategy(max_n: usize) -> impl Strategy<Value = KCase> {
    (records(2, max_n, data_class()), kernel_method_any(), any::<u16>(), 1u8..=3, any::<u64>(), 0u8..7, gen::placement(), (0u8..18, gen::layout())).prop_map(
        |((class, mut x), (method, nonneg), k, rhs_cols, rhs_seed, path, (single, mut offset, scale), (order, layout))| {
            offset.truncate(x.first().map(|r| r.len()).unwrap_or(0));
            if nonneg {
                // fractional polynomial degree: reflect the records into the non-negative orthant so that every
                // base <x_i, x_j> + c (c >= 0) is >= 0 and the power is defined
                for row in x.iter_mut() {
                    for v in row.iter_mut() {
                        *v = v.abs();
                    }
                }
            }
            KCase { class, x, method, k, rhs_cols, rhs_seed, path, offset, scale, single, order, layout }
        },
    )
}

/// data classes for clustering: generic data dominates for the arithmetic linkages (ties make their
/// dendrogram ambiguous), tie-rich data for single linkage
fn hier_records(max_n: usize) -> impl Strategy<Value = (DataClass, gen::Mat)> {
    let class = prop_oneof![
        1 => Just(DataClass::Lattice),
        1 => Just(DataClass::Duplicates),
        3 => Just(DataClass::Clustered),
        3 => Just(DataClass::Gaussian),
    ];
    records(2, max_n, class)
}

fn hier_kernel(l: Link) -> BoxedStrategy<KM> {
    // Ward squares the dissimilarities: only similarities <= 1 (Gaussian kernel) give it a meaning
    match l {
        // squared dissimilarities: only similarities <= 1 (Gaussian kernel) give them a meaning
        Link::Ward | Link::Centroid | Link::Median => prop_oneof![3 => wide_gaussian_method(), 1 => gaussian_method()].boxed(),
        Link::Single => prop_oneof![4 => gaussian_method(), 2 => kernel_method()].boxed(),
        _ => prop_oneof![3 => wide_gaussian_method(), 1 => gaussian_method(), 2 => kernel_method()].boxed(),
    }
}

fn hier_strategy(max_n: usize, crit: impl Strategy<Value = Crit> + 'static) -> impl Strategy<Value = HCase> {
    let lk = link().prop_flat_map(|l| hier_kernel(l).prop_map(move |m| (l, m)));
    (
        hier_records(max_n),
        lk,
        proptest::option::weighted(0.2, any::<u16>()),
        crit,
        any::<bool>(),
        (0u8..18, gen::layout()),
    )
        .prop_map(|((class, x), (link, method), sparse_k, crit, via_dataset, (order, layout))| HCase { class, x, method, sparse_k, link, crit, via_dataset, order, layout })
}

fn all_num_clusters(max_n: usize) -> Vec<HCase> {
    let mut v = vec![];
    for n in 2..=max_n {
        let mut g = SplitMix(0xc06 + n as u64);
        let x: gen::Mat = (0..n).map(|_| (0..2).map(|_| (g.gauss() * 1024.0).round() / 1024.0).collect()).collect();
        for link in [Link::Single, Link::Complete, Link::Average, Link::Weighted, Link::Ward, Link::Centroid, Link::Median] {
            for req in 1..=n + 2 {
                // inverse of `1 + idx(q, n + 2)`: smallest q that maps to req - 1
                let target = req - 1;
                let q = (((target as u64) << 16) + (n as u64 + 1)) / (n as u64 + 2);
                v.push(HCase {
                    class: DataClass::Gaussian,
                    x: x.clone(),
                    method: KM::Gaussian(1.0),
                    sparse_k: None,
                    link,
                    crit: Crit::Num(q.min(65535) as u16),
                    via_dataset: (n + req) % 2 == 0,
                    order: ((n + 2 * req) % 6) as u8,
                    layout: ((n + req) % 7) as u8,
                });
            }
        }
    }
    v
}

/// zero and one record: dense kernels only (a sparse kernel needs 0 < k < n)
fn tiny_kernels() -> Vec<KCase> {
    let mut v = vec![];
    for n in [0usize, 1] {
        for method in [KM::Linear, KM::Gaussian(1.0), KM::Gaussian(0.01), KM::Polynomial(1.0, 2.0), KM::Polynomial(0.0, 3.0), KM::Polynomial(0.5, 2.5), KM::Polynomial(0.0, 0.5), KM::Polynomial(-2.0, 3.0)] {
            for path in 0..6u8 {
                let x: gen::Mat = (0..n).map(|_| vec![1.5, 2.0]).collect();
                v.push(KCase {
                    class: DataClass::Gaussian,
                    x,
                    method: method.clone(),
                    k: 0,
                    rhs_cols: 1 + path % 3,
                    rhs_seed: 7 + path as u64,
                    path,
                    offset: if path % 2 == 0 { vec![] } else { vec![1000.0, 0.0] },
                    scale: 1.0,
                    single: path >= 3,
                    order: 3 * path + 1,
                    layout: path + 1,
                });
            }
        }
    }
    v
}

/// More than 16 records within one ulp of each other: the corner in which the kd-tree build of the
/// `kdtree` crate does not terminate (cases 0-3), and its terminating neighbours (cases 4-5).
fn near_duplicate_clusters() -> Vec<KCase> {
    let ulp64 = 1.4901161193847656e-08; // spacing of f64 at 1e8
    let ulp32 = 0.000244140625; // spacing of f32 at 2048
    let mk = |rows: Vec<Vec<f64>>, offset: Vec<f64>, single: bool, method: KM| KCase {
        class: DataClass::Duplicates,
        x: rows,
        method,
        k: 20000,
        rhs_cols: 2,
        rhs_seed: 11,
        path: 0,
        offset,
        scale: 1.0,
        single,
        order: 0,
        layout: 0,
    };
    let cluster = |n: usize, p: usize, odd: Vec<f64>, pos: usize| -> Vec<Vec<f64>> {
        (0..n).map(|i| if i == pos { odd.clone() } else { vec![0.0; p] }).collect()
    };
    vec![
        mk(cluster(18, 1, vec![ulp64], 17), vec![1e8], false, KM::Gaussian(1.0)),
        mk(cluster(20, 2, vec![0.0, ulp64], 3), vec![1e8, 1e8], false, KM::Linear),
        mk(cluster(18, 1, vec![ulp32], 17), vec![2048.0], true, KM::Gaussian(1.0)),
        mk(cluster(19, 3, vec![0.0, 0.0, ulp32], 0), vec![1000.0, 0.0, 2048.0], true, KM::Polynomial(1.0, 2.0)),
        // min has an odd mantissa: the midpoint rounds onto max and the bucket splits
        mk((0..18).map(|i| vec![if i == 17 { 2.0 * ulp64 } else { ulp64 }]).collect(), vec![1e8], false, KM::Gaussian(1.0)),
        // exact duplicates only: no dimension has a positive spread, the bucket is kept
        mk(cluster(18, 2, vec![0.0, 0.0], 0), vec![1e8, 2.0], false, KM::Gaussian(1.0)),
    ]
}

fn tiny_clusterings() -> Vec<HCase> {
    use gen::Theta;
    let mut v = vec![];
    for n in [0usize, 1] {
        for link in [Link::Single, Link::Complete, Link::Average, Link::Weighted, Link::Ward, Link::Centroid, Link::Median] {
            for method in [KM::Gaussian(1.0), KM::Linear] {
                if link.on_squares() && method == KM::Linear {
                    continue;
                }
                let crits = [
                    Crit::Num(0),
                    Crit::Num(30000),
                    Crit::Num(65535),
                    Crit::Dist(Theta::Raw(0.0)),
                    Crit::Dist(Theta::Raw(1.0)),
                    Crit::Dist(Theta::EqualFirstMerge),
                    Crit::Dist(Theta::BetweenPairwise { rank: 0, frac: 0 }),
                ];
                for (i, crit) in crits.into_iter().enumerate() {
                    let x: gen::Mat = (0..n).map(|_| vec![0.5, 2.0, -1.0]).collect();
                    v.push(HCase { class: DataClass::Gaussian, x, method: method.clone(), sparse_k: None, link, crit, via_dataset: i % 2 == 0, order: (i % 6) as u8, layout: (i % 7) as u8 });
                }
            }
        }
    }
    v
}

pub fn property() -> Property {
    Property {
        id: "C06",
        rule: "kernel cases = (record matrix n x p from {lattice, duplicates, clustered, gaussian}, kernel method, neighbour count k in 1..n, \
               dot right-hand side, construction path, per-feature offset and spacing of the point cloud, element type f64|f32); every case builds the dense kernel and the sparse kernel under LinearSearch, KdTree and BallTree. \
               clustering cases = (records, kernel method, dense|sparse kernel, linkage in {single, complete, average, weighted, ward}, \
               order of the builder calls of HierarchicalCluster and KernelParams incl. a setter called twice (last call wins), \
               NumClusters(1..=n+2) | Distance(theta derived from the case: between / equal to pairwise dissimilarities or reference merge heights)). \
               Non-trivial = sparse kernel whose k-nearest-neighbour relation is asymmetric (some i has j among its k nearest but not vice versa), \
               or a threshold run whose expected partition has strictly between 1 and n clusters, \
               or a NumClusters request with 1 < requested < n or requested > n; distinct = distinct canonical JSON of the case",
        assumptions: vec![
            "kernel sub-check: f64 and f32 kernels (records and kernel parameters rounded to f32 first; reference in f64 on the exact f32 values; all tolerances use the machine epsilon of the element type, absolute floor 1e-300 / 1e-44; cases whose reference kernel values exceed 1e34 in f32 are not judged); clustering sub-checks f64 only; record rows are contiguous (KdTree documents a panic otherwise); 0 < k < n (documented panic otherwise), so sparse kernels need n >= 2; n = 0 and n = 1 are covered by two small enumerations (dense kernels)".into(),
            "Gaussian kernel function = exp(-|x-y|^2 / eps) (pinned by linfa's own gaussian_test) with eps in 10^[-2,2]; polynomial: integral degree 0..=4 with constant in [-3,3.6] (quarters, tenths, integers) on any records (negative bases included), or fractional degree (multiples of 1/4 up to 3.75, tenths up to 3.5) with constant >= 0 on records reflected into the non-negative orthant, so that every base <x,y>+c is >= 0 (zero bases included); (negative base)^(fractional degree) is NaN by definition and is kept out of the generator; negative degrees are not generated (0^-d is infinite); clustering sub-checks use integral degrees 1..=3 and constants in [0,3] only; reference power = repeated multiplication / sqrt(sqrt(b))^(4d) / exp(d ln b), tolerance = image of the error interval of the base under the power + 64 eps (1+|d ln b|) |v|; records: p in 1..=4 columns, point cloud of diameter below about 20 (times 1 or 0.25) placed at a per-feature offset from {0, 1e3, 1e6, 1e8} (f64) or {0, 1000, 2048} (f32)".into(),
            "the Gaussian reference and the neighbour structure are computed from the differences of the records, so their tolerances scale with the distances and never with the norms of the records (a common offset does not loosen them)".into(),
            "kernel entries vs the independent formula: |a-b| <= 64 eps * scale (+1e-300), scale = sum |x_i y_i| (+|c|) for linear/polynomial (propagated through the power), (1+t) exp(-t) with t = |x-y|^2/eps for Gaussian".into(),
            "symmetry of the dense matrix, equality of sparse stored values with the dense ones, column/diagonal/upper-triangle vs the densified matrix: bit equality (same arithmetic / plain copies)".into(),
            "sum and dot vs the densified matrix: (64 + 2n) eps * sum of absolute terms".into(),
            "Gaussian kernel PSD: smallest Jacobi eigenvalue (trusted: vengine::num::jacobi_eigh) >= -1e-12 n, plus 4 random quadratic forms".into(),
            "sparse pattern: a pair must be stored when one point is among the other's k nearest under every way of breaking ties, and must not be stored when neither is under any; two squared distances count as tied when they agree within max(1e-9, 64 eps) relative plus 2 d * 64 eps * (data diameter); patterns of the three indices must coincide when no pair lies in the band".into(),
            "clustering oracle takes the similarity matrix from the kernel object (its entries are judged by the kernel sub-check) and applies -ln(max(s, 1e-6)) itself".into(),
            "thresholds are finite and >= 0 (anything else is a documented parameter error)".into(),
            "non-single linkages are judged against the reference agglomeration only when no two candidate merges are within 1e-9 (1+|h|) of each other and theta is farther than that from every merge height obtained by arithmetic; other cases are counted as not judged".into(),
            "Ward is only run on kernels with similarities <= 1 (Gaussian): kodama squares the dissimilarities, which has no threshold semantics for negative ones; relies on sqrt(fl(d^2)) == d for the first merge height".into(),
            "inputs on which the kd-tree build of the kdtree crate provably does not terminate (predicted by replaying its insertion algorithm; validated against real builds) are not handed to the KdTree index: the call is replaced by the failure signature kdtree:build-recursion-unbounded (known finding), LinearSearch and BallTree are still judged".into(),
            "Centroid and Median linkage are excluded (non-monotone, threshold semantics undefined)".into(),
            "cluster ids are not compared, only the partition and the number of distinct ids".into(),
        ],
        subs: vec![
            prop_sub("kernel", 50000, 250000, |t: Tier| kernel_strategy(t.pick(24, 60)), check_kernel)
                .chunks(16)
            .require(&["knn_relation_asymmetric", "knn_tie_at_rank_k", "offset_1e8", "offset_1e6", "offset_1e3", "element_f32", "poly_fractional_degree", "poly_zero_base", "poly_negative_base", "poly_negative_constant"]),
            prop_sub(
                "threshold",
                100000,
                500000,
                |t: Tier| hier_strategy(t.pick(24, 60), theta().prop_map(Crit::Dist)),
                check_hier,
            )
            .chunks(16)
            .require(&["theta_equals_a_pairwise_dissimilarity", "expect_strictly_between"]),
            prop_sub(
                "num_clusters",
                25000,
                120000,
                |t: Tier| hier_strategy(t.pick(24, 60), any::<u16>().prop_map(Crit::Num)),
                check_hier,
            )
            .require(&["requested_more_than_n"]),
            enum_sub("num_clusters_all", |t: Tier| all_num_clusters(t.pick(10, 24)), check_hier),
            enum_sub("near_duplicate_clusters", |_t: Tier| near_duplicate_clusters(), check_kernel).chunks(1),
            enum_sub("tiny_kernels", |_t: Tier| tiny_kernels(), check_kernel).chunks(1),
            enum_sub("tiny_clusterings", |_t: Tier| tiny_clusterings(), check_hier).chunks(1),
        ],
    }
}
