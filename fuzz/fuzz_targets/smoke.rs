#![no_main]
use libfuzzer_sys::fuzz_target;
fuzz_target!(|data: &[u8]| {
    // build smoke test for the fuzz package: touches the engine only
    let _ = vengine::fnv64(data);
});
