#![no_main]
//! C02 — dataset operation histories: bytes -> c02::Case (dataset + op sequence) -> the same model-based oracle.
use libfuzzer_sys::fuzz_target;
fuzz_target!(|data: &[u8]| {
    if let Some(case) = c02::case_from_bytes(data) {
        vengine::fuzz_one("C02", "from_bytes", &case, c02::check);
    }
});
