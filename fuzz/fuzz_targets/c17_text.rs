#![no_main]
//! C17 — count / tf-idf vectorisers: bytes -> c17::Case -> the same oracle as the proptest tiers.
use libfuzzer_sys::fuzz_target;
fuzz_target!(|data: &[u8]| {
    if let Some(case) = c17::case_from_bytes(data) {
        vengine::fuzz_one("C17", "byte_decoded_cases", &case, c17::check);
    }
});
