#![no_main]
//! C07 — nearest-neighbour indices: bytes -> c07::Case -> the same oracle as the proptest tiers.
use libfuzzer_sys::fuzz_target;
fuzz_target!(|data: &[u8]| {
    if let Some(case) = c07::case_from_bytes(data) {
        vengine::fuzz_one("C07", "bytes", &case, c07::check_case);
    }
});
