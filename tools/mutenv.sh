#!/usr/bin/env bash
# Scratch environment for running a check against a MODIFIED copy of rust-ml/linfa without touching /repo.
#   tools/mutenv.sh setup  <name>             create /tmp/mut-<name>/{repo (git worktree of /repo HEAD), harness, target, vroot}
#   tools/mutenv.sh run    <name> Cxx [tier] [extra args]   sync harness sources, rebuild against the scratch repo, run the check
#   tools/mutenv.sh reset  <name>             git checkout -- . in the scratch repo (undo a mutation)
#   tools/mutenv.sh clean  <name>             remove worktree + build output
# Mutate files under /tmp/mut-<name>/repo, `run`, then `reset`. Exit code / VIOLATION lines are those of the check.
set -u
VER="$(cd "$(dirname "${BASH_SOURCE[0]}")/.." && pwd)"
cmd="${1:?}"; name="${2:?}"; base="/tmp/mut-$name"
sync_harness() {
  mkdir -p "$base/harness" "$base/vroot/replays/regress" "$base/vroot/evidence" "$base/vroot/work"
  rsync -a --delete --exclude target "$VER/harness/" "$base/harness/"
  # redirect every path dependency on /repo to the scratch worktree
  sed -i "s#\"/repo#\"$base/repo#g" "$base/harness/Cargo.toml"
  printf '[net]\noffline = true\n[build]\ntarget-dir = "%s/target"\n' "$base" > "$base/harness/.cargo/config.toml"
  cp "$VER/known_findings.json" "$base/vroot/known_findings.json" 2>/dev/null || true
  mkdir -p "$VER/known_findings.d"; rsync -a --delete "$VER/known_findings.d/" "$base/vroot/known_findings.d/"
  rsync -a --delete "$VER/replays/regress/" "$base/vroot/replays/regress/" 2>/dev/null || true
}
case "$cmd" in
  setup)
    mkdir -p "$base"
    [ -d "$base/repo" ] || git -C /repo worktree add --detach "$base/repo" HEAD >/dev/null 2>&1 || { echo "worktree failed"; exit 2; }
    sync_harness; echo "ready: $base (edit $base/repo, then: tools/mutenv.sh run $name Cxx quick)";;
  run)
    id="${3:?}"; tier="${4:-quick}"; pkg="$(echo "$id" | tr 'A-Z' 'a-z')"
    sync_harness
    if ! (cd "$base/harness" && CARGO_NET_OFFLINE=true cargo build --release --offline -q -p "$pkg") > "$base/build.log" 2>&1; then
      grep -E "^error" -A 12 "$base/build.log" | head -60; echo "BUILD FAILED (mutant does not compile against the harness?)"; exit 2
    fi
    VERIF_ROOT="$base/vroot" "$base/target/release/$pkg" --tier "$tier" "${@:5}";;
  reset) git -C "$base/repo" checkout -- . ;;
  clean) git -C /repo worktree remove --force "$base/repo" 2>/dev/null; rm -rf "$base"; git -C /repo worktree prune;;
  *) echo "unknown command"; exit 2;;
esac
