#!/usr/bin/env bash
# Coverage-guided tier (libFuzzer through cargo-fuzz) for one property; called by ./check for the thorough tier.
#   tools/fuzz_tier.sh <ID> <target> <runs-per-worker> <workers>
# Prints two lines for the caller:  FUZZ_STATS=<json>   and   FUZZ_REPLAYS=<colon separated new replay files>
# A target that cannot be built or run makes the tier inconclusive (exit 2), never a violation.
set -u
ROOT="$(cd "$(dirname "${BASH_SOURCE[0]}")/.." && pwd)"
ID="$1"; TARGET="$2"; RUNS="$3"; WORKERS="${4:-8}"
SEED="${VERIF_SEED:-1}"; [ "$SEED" = 0 ] && SEED=1
export CARGO_NET_OFFLINE=true VERIF_ROOT="$ROOT" CARGO_TARGET_DIR="$ROOT/fuzz/target"
LOG="$ROOT/work/fuzz-$TARGET.build.log"; mkdir -p "$ROOT/work" "$ROOT/replays"
if ! (cd "$ROOT/fuzz" && flock "$ROOT/target/.fuzzbuild.lock" cargo +nightly fuzz build --fuzz-dir "$ROOT/fuzz" --sanitizer none "$TARGET") >"$LOG" 2>&1; then
  grep -E "^error" -A 10 "$LOG" | head -40 >&2; echo "fuzz build failed" >&2; exit 2
fi
BIN="$ROOT/fuzz/target/x86_64-unknown-linux-gnu/release/$TARGET"
[ -x "$BIN" ] || { echo "fuzz binary missing" >&2; exit 2; }
before="$(ls "$ROOT"/replays/$ID-*.json 2>/dev/null | sort)"
W="$ROOT/work/fuzz-$TARGET"; rm -rf "$W"; mkdir -p "$W"
pids=()
for i in $(seq 1 "$WORKERS"); do
  mkdir -p "$W/corpus$i" "$W/art$i"
  cp "$ROOT/fuzz/corpus-seed/$TARGET"/* "$W/corpus$i/" 2>/dev/null || true
  ( cd "$W" && "$BIN" "corpus$i" -runs="$RUNS" -seed=$((SEED * 1000 + i)) -len_control=0 -max_len=2048 \
      -artifact_prefix="$W/art$i/" -print_final_stats=1 -timeout=60 >"$W/log$i.txt" 2>&1 ) &
  pids+=($!)
done
crashed=0
for p in "${pids[@]}"; do wait "$p" || crashed=$((crashed + 1)); done
runs=$(grep -h "stat::number_of_executed_units" "$W"/log*.txt | awk '{s+=$2} END {print s+0}')
cov=$(grep -h "cov: " "$W"/log*.txt | sed -E 's/.*cov: ([0-9]+).*/\1/' | sort -n | tail -1)
corp=$(find "$W" -path "*corpus*" -type f | wc -l)
after="$(ls "$ROOT"/replays/$ID-*.json 2>/dev/null | sort)"
new="$(comm -13 <(echo "$before") <(echo "$after") | paste -sd: -)"
# a worker that died without the oracle writing a replay (timeout / OOM / crash inside linfa before the oracle ran)
unexplained=0
if [ "$crashed" -gt 0 ] && [ -z "$new" ]; then unexplained=$crashed; fi
echo "FUZZ_STATS={\"engine\":\"libFuzzer (cargo-fuzz, sanitizer none, debug assertions on)\",\"target\":\"$TARGET\",\"workers\":$WORKERS,\"runs\":${runs:-0},\"edge_coverage\":${cov:-0},\"corpus_files\":$corp,\"workers_stopped_by_failure\":$crashed,\"unexplained_worker_deaths\":$unexplained}"
echo "FUZZ_REPLAYS=$new"
[ "$unexplained" -gt 0 ] && { tail -5 "$W"/log*.txt >&2; exit 2; }
exit 0
