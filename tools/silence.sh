#!/usr/bin/env bash
# tools/silence.sh "<seeds>" [tier] [ids...] — run checks on the unchanged tree for several seeds; print one line per non-zero exit
cd "$(dirname "${BASH_SOURCE[0]}")/.."
SEEDS="${1:-1 2 3}"; TIER="${2:-quick}"; shift 2 2>/dev/null
IDS="${*:-C01 C02 C03 C04 C05 C06 C07 C08 C09 C10 C11 C12 C13 C14 C15 C16 C17 C18 C19 C20}"
bad=0
for s in $SEEDS; do for id in $IDS; do
  out="$(VERIF_SEED=$s ./check $id $TIER 2>&1)"; rc=$?
  line="$(echo "$out" | grep -E "^$id tier=" | tail -1)"
  if [ $rc -ne 0 ]; then bad=$((bad+1)); echo "NONZERO seed=$s $id rc=$rc"; echo "$out" | grep -E "^(FAIL|VIOLATION|INCONCLUSIVE)" | head -5 | cut -c1-300; fi
  echo "seed=$s $line" | cut -c1-200
done; done
echo "silence run finished: $bad non-zero exits"
