#!/usr/bin/env bash
# tools/run_seed.sh <ID> <X> [tier] [patchfile]  — run check <ID> against seeded change <ID>-<X> in the scratch env "sr"
set -u
VER="$(cd "$(dirname "${BASH_SOURCE[0]}")/.." && pwd)"
ID="$1"; X="$2"; TIER="${3:-quick}"
PATCH="${4:-$VER/seeded/$ID-$X/patch.diff}"; [ -f "$PATCH" ] || PATCH="/tmp/seed-$ID/out/$X/patch.diff"
ENV="${SR_ENV:-sr}"
[ -d "/tmp/mut-$ENV/repo" ] || "$VER/tools/mutenv.sh" setup "$ENV" >/dev/null
git -C "/tmp/mut-$ENV/repo" checkout -q --detach "$(git -C /repo rev-parse HEAD)"; git -C "/tmp/mut-$ENV/repo" checkout -- .
if ! git -C "/tmp/mut-$ENV/repo" apply "$PATCH"; then echo "PATCH DOES NOT APPLY to current HEAD"; exit 3; fi
"$VER/tools/mutenv.sh" run "$ENV" "$ID" "$TIER" "${@:5}" | grep -E "^(FAIL|VIOLATION|KNOWN|INCONCLUSIVE|C[0-9]+ tier)" | cut -c1-300 | head -12
rc=${PIPESTATUS[0]}
git -C "/tmp/mut-$ENV/repo" checkout -- .
exit $rc
