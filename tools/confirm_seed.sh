#!/usr/bin/env bash
# Confirm a seeded change produced by an independent sub-agent, in a scratch worktree (never /repo):
#   tools/confirm_seed.sh <ID> <X> <dest-dir-rel-to-repo> [crate]
#   e.g. tools/confirm_seed.sh C01 A tests linfa        (demo *.rs files are copied to <worktree>/<dest-dir>/)
# Steps: demo passes on the clean tree; patch applies; demo FAILS with the patch; the whole existing
# test-suite still passes with the patch (demo removed). On success the change is stored under /verif/seeded/<ID>-<X>/.
set -u
ID="$1"; X="$2"; DEST="$3"; CRATE="${4:-linfa}"
SRC="${SEED_SRC_ROOT:-/tmp/seed-$ID}/out/$X"
SLOT="${SEEDCHECK_SLOT:-0}"; SC=/tmp/seedcheck$SLOT; WT=$SC/repo; export CARGO_TARGET_DIR=$SC/target CARGO_NET_OFFLINE=true
mkdir -p $SC/logs
[ -d "$WT" ] || git -C /repo worktree add --detach "$WT" HEAD >/dev/null 2>&1
cd "$WT" && git checkout -q --detach "$(git -C /repo rev-parse HEAD)" && git checkout -- . && git clean -fdq
LOG="$SC/logs/$ID-$X.log"; : > "$LOG"
tests=()
mkdir -p "$WT/$DEST"
for f in "$SRC"/demo/*.rs; do cp "$f" "$WT/$DEST/"; tests+=("--test" "$(basename "$f" .rs)"); done
echo "== demo on clean tree" >>"$LOG"
if cargo test --offline -p "$CRATE" "${tests[@]}" >>"$LOG" 2>&1; then clean=pass; else clean=fail; fi
if ! git apply "$SRC/patch.diff" 2>>"$LOG"; then echo "$ID-$X: PATCH DOES NOT APPLY"; exit 1; fi
echo "== demo with patch" >>"$LOG"
if cargo test --offline -p "$CRATE" "${tests[@]}" >>"$LOG" 2>&1; then mutated=pass; else mutated=fail; fi
for f in "$SRC"/demo/*.rs; do rm -f "$WT/$DEST/$(basename "$f")"; done
echo "== full suite with patch" >>"$LOG"
if cargo test --workspace --no-fail-fast --offline >>"$LOG" 2>&1; then suite=pass; else suite=fail; fi
npass=$(grep -E "^test result: ok" "$LOG" | sed -E 's/.* ([0-9]+) passed.*/\1/' | paste -sd+ | bc)
git checkout -- . && git clean -fdq
echo "$ID-$X: demo clean=$clean mutated=$mutated suite=$suite (passed tests summed over all runs in log: $npass)"
if [ "$clean" = pass ] && [ "$mutated" = fail ] && [ "$suite" = pass ]; then
  out="/verif/seeded/$ID-$X"; mkdir -p "$out/demo"
  cp "$SRC/patch.diff" "$out/patch.diff"; cp -r "$SRC"/demo/* "$out/demo/"; cp "$SRC/notes.md" "$out/notes.md" 2>/dev/null
  python3 - "$ID" "$X" "$DEST" "$CRATE" <<'PY'
import json,sys
ID,X,DEST,CRATE=sys.argv[1:5]
json.dump({"property":ID,"change":X,"demo_location":DEST,"demo_crate":CRATE,
 "confirmed":{"demo_on_clean_tree":"pass","demo_with_patch":"fail","existing_suite_with_patch":"pass (cargo test --workspace --no-fail-fast --offline in a scratch worktree)"},
 "needs_to_manifest":"see notes.md","caught_by":None},open(f"/verif/seeded/{ID}-{X}/meta.json","w"),indent=1)
PY
  echo "$ID-$X: CONFIRMED -> $out"
else
  echo "$ID-$X: NOT CONFIRMED (see $LOG)"; exit 1
fi
