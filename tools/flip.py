#!/usr/bin/env python3
"""tools/flip.py <ID> <key|ALL> <fixed:COMMIT|known>  — move entries of a fragment known_findings.d/<ID>.json into
known_findings.json, either as fixed (by the given /repo commit) or as known (kept)."""
import json, sys, os
ROOT=os.path.dirname(os.path.dirname(os.path.abspath(__file__)))
ID,key,mode=sys.argv[1:4]
frag=os.path.join(ROOT,"known_findings.d",f"{ID}.json")
main=os.path.join(ROOT,"known_findings.json")
F=json.load(open(frag)) if os.path.exists(frag) else {"findings":[]}
M=json.load(open(main))
keep=[]
for e in F["findings"]:
    if e["property"]==ID and (key=="ALL" or e["key"]==key):
        if mode.startswith("fixed:"):
            c=mode.split(":",1)[1]
            e["status"]="fixed"; e["commit"]=c
            if not e["text"].startswith("fixed:"):
                e["text"]=f"fixed: property={ID} {c} "+e["text"]
        else:
            e["status"]="known"
        M["findings"]=[x for x in M["findings"] if not (x["property"]==ID and x["key"]==e["key"])]
        M["findings"].append(e)
        print("moved",e["key"],"->",e["status"])
    else:
        keep.append(e)
json.dump(M,open(main,"w"),indent=2,ensure_ascii=False)
if keep:
    json.dump({"findings":keep},open(frag,"w"),indent=2,ensure_ascii=False)
elif os.path.exists(frag):
    os.remove(frag)
