#!/usr/bin/env python3
"""Rewrites the generated region of DESIGN.md (section 8) from known_findings.json(+fragments) and seeded/results.tsv."""
import json, os, glob, re
ROOT = os.path.dirname(os.path.dirname(os.path.abspath(__file__)))
ents = json.load(open(os.path.join(ROOT, "known_findings.json")))["findings"]
for f in sorted(glob.glob(os.path.join(ROOT, "known_findings.d", "*.json"))):
    ents += json.load(open(f))["findings"]
ents.sort(key=lambda e: (e["property"], e["status"], e["key"]))
def clip(t, n=420):
    t = re.sub(r"^fixed: property=\S+ \S+ ", "", t).replace("|", "\\|").replace("\n", " ")
    return t if len(t) <= n else t[: n - 1] + "…"
out = ["<!-- BEGIN GENERATED (tools/mkdesign_tables.py) -->", "",
       "### 8.1 Genuine defects found by the checks", "",
       "Every row was reproduced by the check against the real code with a shrunk replay file (committed under",
       "`replays/regress/`, re-evaluated on every run). `fixed` = repaired by the named `fix:` commit in /repo (the entry",
       "suppresses nothing); `known` = still in the tree, excluded by exactly this signature and printed as `KNOWN-FINDING`.", "",
       "| Prop | Status | Signature (key) | What fails |", "|---|---|---|---|"]
for e in ents:
    st = e["status"] + (" " + e.get("commit", "") if e["status"] == "fixed" else "")
    out.append(f"| {e['property']} | {st} | `{e['key']}` | {clip(e['text'])} |")
nf = sum(1 for e in ents if e["status"] == "fixed"); nk = sum(1 for e in ents if e["status"] == "known")
out += ["", f"Totals: {nf} signatures fixed by `fix:` commits, {nk} recorded as known findings.", ""]
out += ["### 8.2 Seeded changes (independent sub-agents) and which checks catch them", "",
        "Each change was produced by a fresh sub-agent that saw only the property text and its own scratch worktree, then",
        "confirmed here (`tools/confirm_seed.sh`: demonstration passes on the clean tree, fails with the patch, the whole existing",
        "suite still passes with the patch) and stored under `seeded/<id>-<X>/`. `tools/run_seed.sh <ID> <X>` applies it in a",
        "scratch copy and runs the check. Exception: the round-6 outputs for C02..C10 (rows K, L) were still in /tmp when the",
        "sandbox was restored and are lost; their `caught` verdicts are as recorded at the time, and the eight rows that were",
        "`missed` then were re-run, after the strengthening, on patches re-written by hand from the recorded mechanism",
        "(`seeded/reconstructed/`, no demonstration, not independent).", "",
        "| Seed | Result | Tier | Caught by (signature) / what was strengthened |", "|---|---|---|---|"]
p = os.path.join(ROOT, "seeded", "results.tsv")
rows = [l.rstrip("\n").split("\t") for l in open(p) if l.strip()] if os.path.exists(p) else []
for r in sorted(rows):
    r += [""] * (4 - len(r))
    out.append(f"| {r[0]} | {r[1]} | {r[2]} | {r[3].replace('|','/')} |")
c = sum(1 for r in rows if r[1].startswith("caught")); m = sum(1 for r in rows if r[1].startswith("missed"))
out += ["", f"Totals: {len(rows)} seeded changes run, {c} caught ({sum(1 for r in rows if 'after-strengthening' in r[1])} of them only after the check was strengthened), {m} missed.", "",
        "<!-- END GENERATED -->"]
d = open(os.path.join(ROOT, "DESIGN.md")).read()
block = "\n".join(out)
if "<!-- BEGIN GENERATED" in d:
    d = re.sub(r"<!-- BEGIN GENERATED.*?<!-- END GENERATED -->", lambda m: block, d, flags=re.S)
else:
    d += "\n--------------------------------------------------------------------------------------------\n\n## 8. What the checks found, and which seeded changes they catch\n\n" + block + "\n"
open(os.path.join(ROOT, "DESIGN.md"), "w").write(d)
# also refresh caught_by in seeded/*/meta.json
for r in rows:
    mp = os.path.join(ROOT, "seeded", r[0], "meta.json")
    if os.path.exists(mp):
        m = json.load(open(mp)); m["caught_by"] = {"result": r[1], "tier": r[2], "detail": r[3]}
        m["ran"] = f"tools/run_seed.sh {r[0].split('-')[0]} {r[0].split('-')[1]} (patch applied in a scratch worktree + harness copy; unchanged tree: exit 0)"
        json.dump(m, open(mp, "w"), indent=1)
print("findings", len(ents), "seeds", len(rows))
