#!/usr/bin/env python3
"""Regenerates /verif/MANIFEST.json from the table below (kept valid at all times)."""
import json, os, subprocess
ROOT = os.path.dirname(os.path.dirname(os.path.abspath(__file__)))
props = [json.loads(l) for l in open(os.path.join(ROOT, "properties.jsonl"))]

# id -> (technique, level text, level note, design ref)
CLAIMED = {
 "C01": ("proptest generation + exhaustive (n,k) enumeration against an index-arithmetic reference model of the folds; identity-tagged rows; mock models/closures with injected failures",
         "Exploration: every fold operation (fold, iter_fold, cross_validate, cross_validate_single) is run on generated and enumerated (n, k, feature count, target rank, owned/view, models, closures) and compared with folds recomputed by the harness' own slicing; shows the property on everything explored, never absence.",
         "Trusted: ndarray, proptest, the harness' reference arithmetic. k=0, k>n and non-contiguous data are documented panics and are not generated.",
         "DESIGN.md §3 C01"),
}
try:
    extra = json.load(open(os.path.join(ROOT, "tools", "claimed.json")))
    for k, v in extra.items():
        CLAIMED[k] = tuple(v)
except FileNotFoundError:
    pass

hook_commits = []
try:
    hook_commits = json.load(open(os.path.join(ROOT, "tools", "hook_commits.json")))
except FileNotFoundError:
    pass

checks, na = [], []
for p in props:
    i = p["id"]
    if i in CLAIMED and os.path.isdir(os.path.join(ROOT, "harness", "props", i.lower())):
        tech, text, note, ref = CLAIMED[i]
        checks.append({
            "property_id": i,
            "quick_cmd": f"./check {i} quick",
            "thorough_cmd": f"./check {i} thorough",
            "evidence_file": f"/verif/evidence/{i}.json",
            "replay_cmd_template": f"./check {i} --replay {{path}}",
            "engine": "harness",
            "level_claimed": {"category": "exploration", "text": text, "design_ref": ref},
            "level_note": note,
            "technique": tech,
        })
    else:
        na.append({"property_id": i, "reason": "check not built yet (work in progress; the design in DESIGN.md §3 applies) — not a statement that the technique cannot apply"})

m = {
 "version": 1,
 "setup_cmd": "./check --build",
 "hooks": {
   "guard": "none needed: no hook or instrumentation was added to /repo (reserved name: cargo feature `verif-hooks`); the checks use the public API and linfa's own `serde` feature only",
   "enable": "the harness workspace /verif/harness depends on the /repo crates by path with features = [\"serde\"]; ./check rebuilds them from /repo's working tree before every run",
   "baseline_off_cmd": "cd /repo && cargo test --workspace --no-fail-fast --offline",
   "source_commits": hook_commits,
   "add_only": True,
 },
 "engines": [
   {"name": "harness", "path": "/verif/harness", "serves_properties": [c["property_id"] for c in checks],
    "kind_free_text": "proptest-driven generated-input search (RngSeed::Fixed from VERIF_SEED, shrinking, JSON replay files), exhaustive enumeration of small finite strata, child-process isolation, signature-keyed known findings"},
 ],
 "checks": checks,
 "not_applicable": na,
 "notes": "exit 0 held / exit 1 VIOLATION / exit 2 INCONCLUSIVE (build failure, watchdog, generator health). Every run also replays the committed counter-examples under replays/regress/.",
}
json.dump(m, open(os.path.join(ROOT, "MANIFEST.json"), "w"), indent=1)
print("claimed:", [c["property_id"] for c in checks])
